"""Shared by C06 / C07: concretisation of the abstract domains of spec/Ingest.tla (kinds, value
classes, envelopes) into command text, engine lifetimes, decoding of answers into the relations the
specification judges, and the TLC runs (case enumeration, histories, trace validation).

No judgement lives here: which verdict / which cell is right comes from TLC (Ingest.tla); this file
only spells abstract values, runs them and compares for equality."""
import json
import random
import shutil
from concurrent.futures import ThreadPoolExecutor
from pathlib import Path

from vlib import core

ALL_FIXES = ["json-aware-payload-scan", "exponent-plus-tokenised", "time-range-checked", "text-kept-as-text",
             "strings-not-parsed", "null-bitmap-for-text", "float-column-keeps-integers", "return-columns-ordered",
             "compaction-tolerates-missing-column"]
# defect name of the as-built side of Ingest.tla -> finding id in known_findings.jsonl
FINDING = {
    "json-aware-payload-scan": "C06-brace-in-string-rejected",
    "exponent-plus-tokenised": "C06-exponent-plus-rejected",
    "time-range-checked": "C06-out-of-range-time-accepted",
    "text-kept-as-text": "C07-text-retyped-on-disk",
    "strings-not-parsed": "C07-string-parsed-as-json",
    "null-bitmap-for-text": "C07-null-text-becomes-empty",
    "float-column-keeps-integers": "C07-int-in-float-rounded-on-disk",
    "return-columns-ordered": "C07-return-permutes-memory-columns",
    "compaction-tolerates-missing-column": "C07-absent-column-breaks-compaction",
}

BASE = ["string", "int", "u64", "float", "bool", "datetime", "date", "enum"]
KINDS = BASE + ["o" + b for b in BASE if b != "enum"]
ALIASES = {
    "string": ["string", "str", "text", "varchar", "STRING"],
    "int": ["int", "i64", "int64", "integer", "Int"],
    "u64": ["u64", "uint64", "U64"],
    "float": ["float", "f64", "double", "number", "FLOAT"],
    "bool": ["bool", "boolean", "Bool"],
    "datetime": ["datetime", "timestamp", "DateTime"],
    "date": ["date", "DATE"],
}
ENUM_VARIANTS = ["alpha", "b c", "Ünï", "7", "false"]


def base(kind):
    return kind[1:] if kind.startswith("o") and kind[1:] in BASE else kind


def kind_spec(kind, rnd):
    """DEFINE spelling of a kind (every documented alias, nullable unions in both orders)."""
    b = base(kind)
    if b == "enum":
        return "[" + ", ".join(json.dumps(v, ensure_ascii=False) for v in ENUM_VARIANTS) + "]"
    a = rnd.choice(ALIASES[b])
    if kind != b:
        return json.dumps(rnd.choice([f"{a} | null", f"null | {a}", f"{a}|NULL", f"{a} | null"]))
    return json.dumps(a)


class Rep:
    """One concrete representative of a value class: JSON source text, decoded value, and for
    time values the instant it denotes (known by construction, not computed from the text)."""
    __slots__ = ("text", "value", "epoch", "day")

    def __init__(self, text, value, epoch=None, day=None):
        self.text = text
        self.value = value
        self.epoch = epoch      # instant in epoch seconds when read as a datetime
        self.day = day          # epoch seconds when read as a date (midnight UTC for date strings)

    def __repr__(self):
        return f"Rep({self.text[:40]})"


def S(v, escaped=False):
    return Rep(json.dumps(v, ensure_ascii=escaped), v)


def T(text, epoch, day=None):
    return Rep(json.dumps(text), text, epoch, epoch if day is None else day)


def N(text, epoch=None):
    v = json.loads(text)
    return Rep(text, v, epoch, epoch)


T0 = 1704164645  # 2024-01-02T03:04:05Z
REPS = {
    "null": [Rep("null", None)],
    "b_true": [Rep("true", True)],
    "b_false": [Rep("false", False)],
    "n_object": [Rep('{"a": 1}', {"a": 1}), Rep("{}", {})],
    "n_array": [Rep("[1]", [1]), Rep("[]", []), Rep('["x"]', ["x"])],
    "s_plain": [S("hello"), S("Order_42-x"), S("a")],
    "s_empty": [S("")],
    "s_space": [S(" "), S("   "), S("\t"), S(" padded ")],
    "s_nonascii": [S("héllo"), S("日本語"), S("🚀 rocket"), S("naïve café Ω", escaped=True), S("ß😀é", escaped=True)],
    "s_long": [S("x" * 1000), S("ab" * 35000), S("é" * 3000)],
    "s_escape": [S('a"b'), S("back\\slash"), S("line\nbreak"), S("tab\there"), S("\u0001ctl"), S("end\\")],
    "s_numlike": [S("123"), S("-5"), S(" 12 "), S("1e3"), S("007"), S("3.14"), S("+5"), S("-0"), S("0")],
    "s_boollike": [S("true"), S(" false "), S(" true ")],
    "s_nulllike": [S("null")],
    "s_jsonlike": [S("[1,2]"), S("{}"), S('{"a":1}'), S("[]")],
    "s_biglike": [S("18446744073709551615"), S("9223372036854775808")],
    "s_brace": [S("a}b"), S("{"), S("}{"), S("x{y")],
    "s_var_plain": [S("alpha"), S("b c"), S("Ünï")],
    "s_var_numlike": [S("7"), S("false")],
    "s_var_wrongcase": [S("Alpha"), S("ALPHA"), S("B C"), S("FALSE")],
    "s_t_rfc3339": [T("2024-01-02T03:04:05Z", T0), T("2024-01-02T05:04:05+02:00", T0), T("2024-01-01T19:04:05-08:00", T0),
                    T("2024-01-02T03:04:05.999Z", T0), T("2024-01-02T03:04:05+00:00", T0), T("1969-12-31T23:59:59Z", -1),
                    T("2038-01-19T03:14:08Z", 2147483648), T("2100-01-01T00:00:00Z", 4102444800)],
    "s_t_date": [T("2024-01-02", 1704153600), T("1970-01-01", 0), T("2024-02-29", 1709164800), T("1969-12-31", -86400)],
    "s_t_epochstr": [S("1700000000"), S("1700000000123")],
    "s_t_bad": [S("2024-13-02"), S("yesterday"), S("2024-01-02 03:04:05"), S("2024-02-30"), S("03:04:05"), S("2024-01-02T25:00:00Z")],
    "i_small": [N("0", 0), N("42", 42), N("7", 7)],
    "i_neg": [N("-1"), N("-42")],
    "i_min": [N("-9223372036854775808")],
    "i_max": [N("9223372036854775807")],
    "i_u64": [N("9223372036854775808"), N("18446744073709551615")],
    "i_huge": [N("18446744073709551616"), N("99999999999999999999")],
    "i_big53": [N("9007199254740993")],
    "i_epoch_s": [N("1700000000", 1700000000), N("1704164645", T0)],
    "i_epoch_ms": [N("1700000000123", 1700000000), N("1704164645000", T0), N("100000000123", 100000000)],   # 13 and 12 digits
    "i_epoch_us": [N("1700000000123456", 1700000000), N("100000000123456", 100000000)],                      # 16 and 15 digits
    "i_epoch_ns": [N("1700000000123456789", 1700000000), N("100000000123456789", 100000000)],                # 19 and 18 digits
    "f_frac": [N("1.5"), N("-2.25"), N("0.1"), N("3.141592653589793"), N("1e-7")],
    "f_integral": [N("1.0"), N("1e3"), N("-0.0"), N("2.0E2")],
    "f_max": [N("1.7976931348623157e308"), N("-1.7976931348623157e308")],
    "f_tiny": [N("5e-324"), N("2.2250738585072014e-308")],
    "f_expplus": [N("1.25e+1"), N("2.5E+0")],
}
CLASSES = ["absent"] + list(REPS)


def reps(cls):
    return REPS[cls]


def pick(cls, rnd):
    return rnd.choice(REPS[cls])


# --------------------------------------------------------------------------- decoding / relations
def is_num(x):
    return isinstance(x, (int, float)) and not isinstance(x, bool)


def strict_eq(a, b):
    """JSON equality: numbers numerically (exact), strings byte-wise, no cross-type equality."""
    if a is None or b is None:
        return a is None and b is None
    if isinstance(a, bool) or isinstance(b, bool):
        return isinstance(a, bool) and isinstance(b, bool) and a == b
    if is_num(a) and is_num(b):
        return a == b
    if isinstance(a, str) and isinstance(b, str):
        return a == b
    return False


def scalar_of_text(s):
    """The JSON number / boolean / null that the trimmed text spells (symptom of a known finding)."""
    t = s.strip()
    if t in ("true", "false"):
        return True, t == "true"
    if t == "null":
        return True, None
    for conv in (int, float):
        try:
            v = conv(t)
            if conv is float and (v != v or v in (float("inf"), float("-inf"))):
                continue
            return True, v
        except ValueError:
            pass
    return False, None


MISSING = object()


def relations(cell, rep, kind, memcell=MISSING):
    """Which of the relations named in Ingest.tla hold between a returned cell and what was stored."""
    want = rep.value if rep is not None else None
    b = base(kind)
    ep = None
    if rep is not None:
        ep = rep.day if b == "date" else rep.epoch
    rel = {
        "same": rep is not None and strict_eq(cell, want),
        "null": cell is None,
        "epoch": ep is not None and isinstance(cell, int) and not isinstance(cell, bool) and cell == ep,
        "own": is_num(cell) and (memcell is MISSING or strict_eq(cell, memcell)),
        "scalar_of_text": False, "json_of_text": False,
        "empty_text": isinstance(cell, str) and cell == "",
        "nearest_double": isinstance(cell, float) and isinstance(want, int) and not isinstance(want, bool) and cell == float(want),
    }
    if isinstance(want, str) and not isinstance(cell, str):
        ok, v = scalar_of_text(want)
        if ok and (v is None and cell is None or v is not None and strict_eq(cell, v)):
            rel["scalar_of_text"] = True
        try:
            j = json.loads(want)
            if isinstance(j, (list, dict)) and j == cell or is_num(j) and is_num(cell) and j == cell:
                rel["json_of_text"] = True
        except ValueError:
            pass
    return rel


def status_class(o):
    """Status class of a command observation: accept / reject / other (panic, time-out)."""
    if o is None:
        return "other"
    if o.get("outcome") == "response":
        return "accept" if o.get("status") == 200 else "reject"
    if o.get("outcome") == "parse_error":
        return "reject"
    return "other"


def rows_of(o):
    """Rows of a QUERY / REPLAY observation as dicts; [] for 'no such type' style errors; None if unusable."""
    if o is None or o.get("outcome") != "response":
        return None
    cols = o.get("columns") or []
    return [dict(zip(cols, r)) for r in (o.get("rows") or [])]


# --------------------------------------------------------------------------- TLC
def write_cfg(name, *, part, spec, gen_len=0, max_b=1, max_len=2, invariants=(), fix=None):
    d = core.WORK / "cfg"
    d.mkdir(parents=True, exist_ok=True)
    p = d / f"Ingest_{name}.cfg"
    fx = "{" + ", ".join(f'"{f}"' for f in (ALL_FIXES if fix is None else fix)) + "}"
    inv = ("INVARIANTS " + " ".join(invariants) + "\n") if invariants else ""
    p.write_text(f"""SPECIFICATION {spec}
CONSTANTS
  Part = "{part}"
  Fix = {fx}
  GenLen = {gen_len}
  MaxB = {max_b}
  MaxLen = {max_len}
{inv}CHECK_DEADLOCK FALSE
""")
    return p


def case_lines(part, *, max_len=2, fix=()):
    """Enumerate one case part with TLC (as-built Fix by default so that `built`/`defect` are filled)."""
    cfg = write_cfg(f"{part}{max_len}", part=part, spec="CaseSpec", max_len=max_len, invariants=("EmitCase",), fix=list(fix))
    r = core.tlc("Ingest", cfg, workers=4, timeout=600, xss=True)
    core.tlc_ok(r, f"Ingest/{part}")
    lines = r.printed("LINE")
    if len(lines) != r.distinct or not lines:
        raise core.ToolError(f"Ingest/{part}: {len(lines)} lines for {r.distinct} states")
    return lines, r


def histories(part, *, gen_len, max_b=1, n=None, seed=1, invariants=(), exhaustive=False, timeout=900):
    """Histories of the 'def' / 'tier' machine: exhaustive (BFS) or n random ones (simulation)."""
    spec = {"def": "DefSpec", "tier": "TierSpec"}[part]
    emit = {"def": "EmitDef", "tier": "EmitTier"}[part]
    cfg = write_cfg(f"{part}_gen{gen_len}", part=part, spec=spec, gen_len=gen_len, max_b=max_b, invariants=tuple(invariants) + (emit,))
    if exhaustive:
        r = core.tlc("Ingest", cfg, workers=4, timeout=timeout)
    else:
        r = core.tlc("Ingest", cfg, workers=1, simulate=n, depth=gen_len + 1, seed_=seed, timeout=timeout)
    if r.error or r.violated:
        core.log(r.out[-3000:])
        raise core.ToolError(f"Ingest/{part} history generation failed: {r.error or r.violated}")
    seen, out = set(), []
    for b in r.printed("BEH"):
        k = json.dumps(b, sort_keys=True)
        if k not in seen:
            seen.add(k)
            out.append(b)
    return out, r


def model_check(part, *, gen_len, max_b=1, invariants, must_take):
    """Stage M: exhaustive run of a machine of Ingest.tla on the design parameterisation."""
    spec = {"def": "DefSpec", "tier": "TierSpec"}[part]
    cfg = write_cfg(f"{part}_m{gen_len}", part=part, spec=spec, gen_len=gen_len, max_b=max_b, invariants=invariants)
    r = core.tlc("Ingest", cfg, workers=8, timeout=900, coverage=True)
    core.tlc_ok(r, f"Ingest/{part} (design parameterisation)")
    for a in must_take:
        if r.action_cov.get(a, 0) == 0:
            raise core.ToolError(f"vacuity: {a} never taken in Ingest/{part}")
    return r


def validate_trace(records, name):
    """Stage T: TLC re-judges recorded executions (IngestTrace.tla). Returns (n, [(index0, verdict)])."""
    d = core.WORK / name
    d.mkdir(parents=True, exist_ok=True)
    p = d / "trace.ndjson"
    with open(p, "w") as f:
        for r in records:
            f.write(json.dumps(r) + "\n")
    cfg = write_cfg("trace", part="none", spec="CaseSpec", fix=[])
    r = core.tlc("IngestTrace", cfg, workers=1, timeout=1200, xss=True, env={"TRACE": str(p)}, mem="6g")
    core.tlc_ok(r, "IngestTrace")
    res = r.printed("TRACE")
    if len(res) != 1 or res[0]["n"] != len(records):
        raise core.ToolError(f"IngestTrace judged {res[0]['n'] if res else None} of {len(records)} records")
    return res[0]["n"], [(i - 1, v) for i, v in res[0]["notok"]]


# --------------------------------------------------------------------------- engine runs
def cmd(text, tag=None):
    return {"op": "cmd", "text": text, "tag": tag}


def run_life(bindir, root, name, steps, *, epz=2, fill=100000, k=2, timeout=900):
    sc = {"config": {"root": str(root / "db"), "fill_factor": fill, "event_per_zone": epz, "shards": 1, "k": k},
          "out": str(root / f"{name}.ndjson"), "steps": steps}
    rc, obs, err = core.run_vdrive(bindir, sc, timeout=timeout)
    return rc, obs, err


def fresh_root(*parts):
    root = core.WORK.joinpath(*parts)
    shutil.rmtree(root, ignore_errors=True)
    root.mkdir(parents=True)
    return root


def by_tag(obs):
    out = {}
    for o in obs:
        t = o.get("tag")
        if t is not None and o.get("op") == "cmd":
            out[t if not isinstance(t, list) else tuple(t)] = o
    return out


def parallel(fn, items, workers=8):
    with ThreadPoolExecutor(max_workers=workers) as ex:
        return list(ex.map(fn, items))


def ctx_text(ctx):
    """Command spelling of a context id: bare word where the grammar allows it, else quoted."""
    import re
    if re.fullmatch(r"[A-Za-z_][A-Za-z0-9_-]*", ctx):
        return ctx
    return '"' + ctx + '"'


def define_text(tname, fields, rnd, version=None):
    """fields: [(name, kind)]"""
    parts = []
    for fname, kind in fields:
        key = fname if rnd.random() < 0.5 else json.dumps(fname)
        parts.append(f"{key}: {kind_spec(kind, rnd)}")
    v = f" AS {version}" if version else ""
    return f"DEFINE {tname}{v} FIELDS {{ " + ", ".join(parts) + " }"


def payload_text(pairs):
    """pairs: [(key, json source text)] -> object source text"""
    return "{" + ", ".join(f"{json.dumps(k)}: {t}" for k, t in pairs) + "}"


DRAIN = [{"op": "sleep", "ms": 60}, {"op": "wal_drain"}, {"op": "wal_drain"}]


def wal_lines(obs):
    """Number of WAL lines on disk reported by the last wal_drain of a lifetime (None if there was none)."""
    n = None
    for o in obs:
        if o.get("op") == "wal_drain":
            n = o.get("lines")
    return n


def cap_violations(chk, limit=40):
    """Keep a mass failure from writing thousands of replay files: after `limit` violations only count them."""
    orig = chk.violation

    def capped(what, replay_obj):
        if len(chk.violations) < limit:
            orig(what, replay_obj)
        else:
            chk.violations.append((what, "not written"))
            chk.cov["violations_without_replay_file"] = chk.cov.get("violations_without_replay_file", 0) + 1
    chk.violation = capped


def drop_root(root):
    shutil.rmtree(root, ignore_errors=True)
