"""C13 machinery: concretisation of Auth.tla's abstract requests / management actions into
vauth scripts, running server lifetimes, decoding observations back into the abstract
vocabulary.  No property semantics here: what is expected of a request comes from TLC
(AuthProbe tables for Stage R, AuthTrace verdicts for Stage T)."""
import hashlib
import hmac
import json
import os
import shutil
import socket
import subprocess
import threading
from pathlib import Path

from . import core

TYPES = ["ta", "tb"]
SUBJECT_IDS = {"u1": "alice", "byp": "bypass", "noa": "no-auth", "adm2": "admin"}
ADMIN = "rootadm"
U2 = "bob"
GHOST = "mallory"
VICTIM = "victim"
SEEDS = {"ta": ["seedA", "1000003", "3000008"], "tb": ["seedB", "2000005", "3000008"]}
SEED_K = {"ta": 1000003, "tb": 2000005}
SEED_M = {"ta": "seedA", "tb": "seedB"}
MARK = {"ta": "pA", "tb": "pB"}


def key_of(uid):
    return f"k-{uid}-s3cret"


def quote_id(uid):
    return f'"{uid}"' if not uid.replace("_", "").isalnum() else uid


def sign(key, text):
    return hmac.new(key.encode(), text.encode(), hashlib.sha256).hexdigest()


# --------------------------------------------------------------------------- TLC side
def gen_behaviours(cfg, n, gen_len, seed, timeout=300):
    r = core.tlc("AuthGen", cfg, workers=1, simulate=n, depth=gen_len + 1, seed_=seed, timeout=timeout)
    if r.error or r.violated:
        core.log(r.out[-3000:])
        raise core.ToolError(f"AuthGen failed: {r.error or r.violated}")
    seen, out = set(), []
    for b in r.printed("BEH"):
        k = json.dumps(b, sort_keys=True)
        if k not in seen:
            seen.add(k)
            out.append(b)
    return out, r


def state_key(st):
    return hashlib.sha1(json.dumps(st, sort_keys=True).encode()).hexdigest()[:16]


def blank_state(sid):
    return {"sid": sid, "ex": False, "act": False, "roles": [],
            "perms": {t: {"set": False, "r": False, "w": False} for t in TYPES},
            "conn": {"c1": False, "w1": False}, "tok": {"c1": "none", "w1": "none"}}


def probe_tables(states, workdir):
    """AuthProbe: {state key -> [rows]} and the static rows, for the given model states."""
    workdir.mkdir(parents=True, exist_ok=True)
    f = workdir / "states.ndjson"
    keyed = {}
    for st in states:
        keyed[state_key(st)] = st
    with open(f, "w") as fh:
        for k, st in keyed.items():
            fh.write(json.dumps(dict(st, key=k)) + "\n")
    r = core.tlc("AuthProbe", "AuthProbe.cfg", workers=4, env={"STATES": str(f)}, timeout=900)
    core.tlc_ok(r, "AuthProbe")
    tabs = {t["key"]: [row_dict(x) for x in t["probes"]] for t in r.printed("TAB")}
    static = [[row_dict(x) for x in s] for s in r.printed("STATIC")]
    missing = set(keyed) - set(tabs)
    if missing or not static:
        raise core.ToolError(f"AuthProbe printed no table for {len(missing)} states / static={bool(static)}")
    return tabs, static[0], r


ROW = ("fe", "form", "cred", "who", "c", "k", "t", "t2", "e", "see")


def row_dict(row):
    if isinstance(row, dict):
        return row
    d = dict(zip(ROW, row))
    d["see"] = sorted(d["see"])
    return d


# --------------------------------------------------------------------------- concretisation
class Life:
    """Builds the vauth script of one server lifetime from a behaviour."""

    def __init__(self, name, sid, *, tick=False, memseed=False):
        self.name = name
        self.sid = sid
        self.subject = SUBJECT_IDS[sid]
        self.tick = tick
        self.memseed = memseed
        self.steps = []
        self.meta = []          # parallel to steps: None or dict describing the step for the judge
        self.rid = 0
        self.subject_live = False     # only a hint for how long to wait for the answer to a WebSocket AUTH

    def _add(self, step, meta=None):
        self.steps.append(step)
        self.meta.append(meta)

    def admin(self, cmd, why="setup"):
        self._add({"op": "admin", "cmd": cmd}, {"kind": "admin", "why": why})

    def setup(self):
        for t in TYPES:
            self.admin(f'DEFINE {t} FIELDS {{ k: "int", m: "string", l: "int" }}')
        for t in TYPES:
            self.admin(f'STORE {t} FOR c1 PAYLOAD {{"k": {SEED_K[t]}, "m": "{SEED_M[t]}", "l": 1}}')
        self.admin(f'CREATE USER {U2} WITH KEY "{key_of(U2)}"')
        self.admin(f"GRANT READ ON tb TO {U2}")
        self.admin(f'CREATE USER {VICTIM} WITH KEY "{key_of(VICTIM)}"')
        self.admin(f"GRANT READ ON ta TO {VICTIM}")
        for t in TYPES:
            self.admin(f"REMEMBER QUERY {t} AS seedmat_{t}")
        if not self.memseed:
            self.admin("FLUSH")
        self._add({"op": "mint", "user": ADMIN, "key": key_of(ADMIN), "token": "k_adm"}, {"kind": "mint"})

    def action(self, idx, act, model_state):
        a = act["a"]
        uid = self.subject
        meta = {"kind": "act", "idx": idx, "act": act, "model": model_state}
        if a == "create":
            roles = act["roles"]
            cmd = f'CREATE USER {quote_id(uid)} WITH KEY "{key_of(uid)}"'
            if roles:
                cmd += " WITH ROLES [" + ", ".join(f'"{r}"' for r in roles) + "]"
            self._add({"op": "admin", "cmd": cmd}, meta)
        elif a in ("grant", "revoke"):
            perms = ", ".join({"r": "READ", "w": "WRITE"}[p] for p in sorted(act["p"]))
            if a == "grant":
                cmd = f"GRANT {perms} ON {act['t']} TO {quote_id(uid)}"
            else:
                # p = {} is "everything"; the documented short form `REVOKE ON t FROM u` is rejected by the
                # parser ("Invalid permission: 'ON'"), so both rights are named
                cmd = f"REVOKE {perms if perms else 'READ, WRITE'} ON {act['t']} FROM {quote_id(uid)}"
            self._add({"op": "admin", "cmd": cmd}, meta)
        elif a == "revoke_key":
            self._add({"op": "admin", "cmd": f"REVOKE KEY {quote_id(uid)}"}, meta)
        elif a == "auth":
            c = act["c"]
            self._add({"op": "auth", "fe": "ws" if c == "w1" else "tcp", "conn": c, "user": uid, "key": key_of(uid),
                       "token": f"k_{c}"}, meta)
        elif a == "restart":
            self._add({"op": "restart"}, meta)
        elif a == "tick":
            # expires_at = floor(now) + 3 and a token is refused once floor(now) > expires_at
            self._add({"op": "sleep", "ms": 4150}, meta)
        else:
            raise core.ToolError(f"unknown action {a}")
        self._add({"op": "snapshot"}, {"kind": "snapshot", "idx": idx, "act": act, "model": model_state})

    def _principal(self, who):
        return {"subj": self.subject, "adm": ADMIN, "u2": U2, "ghost": GHOST}[who]

    def _command(self, k, t, t2, rid):
        """-> (text, effect, pre, undo)"""
        tag = f"{self.name}x{rid}z"      # closed by a letter: no tag is a prefix of another
        mk = f"{MARK.get(t, 'pX')}{tag}"
        payload = {"k": 0, "m": mk, "l": 0}
        eff_marker = {"kind": "marker", "type": t, "marker": mk}
        if k == "store":
            return f"STORE {t} FOR p{rid} PAYLOAD {json.dumps(payload)}", eff_marker, None, None
        if k == "store_tokpayload":
            payload["m"] = mk + " TOKEN {{tok:k_adm}}"
            return f"STORE {t} FOR p{rid} PAYLOAD {json.dumps(payload)}", eff_marker, None, None
        if k == "store_sigpayload":
            payload["m"] = f"{mk} {ADMIN}:{sign(key_of(ADMIN), 'PING')}:PING"
            return f"STORE {t} FOR p{rid} PAYLOAD {json.dumps(payload)}", eff_marker, None, None
        if k == "batch_store":
            return f"BATCH [ STORE {t} FOR p{rid} PAYLOAD {json.dumps(payload)}; ]", eff_marker, None, None
        if k == "json_store":
            return json.dumps({"type": "Store", "event_type": t, "context_id": f"p{rid}", "payload": payload}), eff_marker, None, None
        if k == "query":
            return f"QUERY {t}", None, None, None
        if k == "find":
            return f"FIND {t}", None, None, None
        if k == "count":
            return f"QUERY {t} COUNT", None, None, None
        if k == "agg":
            return f"PLOT TOTAL(k) OF {t}", None, None, None
        if k == "replay":
            return f"REPLAY {t} FOR c1", None, None, None
        if k == "remember":
            nm = f"r{tag}"
            return f"REMEMBER QUERY {t} AS {nm}", {"kind": "mat_exists", "name": nm}, None, None
        if k == "show":
            return f"SHOW seedmat_{t}", None, None, None
        if k == "json_query":
            return json.dumps({"type": "Query", "event_type": t}), None, None, None
        if k == "json_replay":
            return json.dumps({"type": "Replay", "event_type": t, "context_id": "c1"}), None, None, None
        if k == "seq":
            return f"QUERY {t} FOLLOWED BY {t2} LINKED BY l", None, None, None
        if k == "compare":
            return f"PLOT TOTAL(k) OF {t} VS TOTAL(k) OF {t2}", None, None, None
        if k == "replay_all":
            return "REPLAY FOR c1", None, None, None
        if k == "flush":
            return "FLUSH", None, None, None
        if k == "ping":
            return "PING", None, None, None
        if k == "define":
            nt = f"tx{tag}"
            return f'DEFINE {nt} FIELDS {{ k: "int" }}', {"kind": "type_defined", "type": nt}, None, None
        if k == "create_user":
            nu = f"px{tag}"
            return f"CREATE USER {nu}", {"kind": "user_exists", "id": nu}, None, None
        if k == "revoke_key":
            nu = f"rv{tag}"
            return f"REVOKE KEY {nu}", {"kind": "user_inactive", "id": nu}, [f"CREATE USER {nu}"], None
        if k == "list_users":
            return "LIST USERS", None, None, None
        if k == "show_perms":
            return f"SHOW PERMISSIONS FOR {VICTIM}", None, None, None
        if k == "grant":
            return (f"GRANT WRITE ON tb TO {VICTIM}", {"kind": "perm", "id": VICTIM, "type": "tb", "field": "w", "value": True},
                    None, [f"REVOKE WRITE ON tb FROM {VICTIM}"])
        if k == "revoke":
            return (f"REVOKE READ ON ta FROM {VICTIM}", {"kind": "perm", "id": VICTIM, "type": "ta", "field": "r", "value": False},
                    None, [f"GRANT READ ON ta TO {VICTIM}"])
        raise core.ToolError(f"unknown command kind {k}")

    def request(self, ck, row, origin):
        """row: dict with fe, form, cred, who, c, k, t, t2 (+ e, see for Stage R rows)."""
        self.rid += 1
        rid = self.rid
        text, effect, pre, undo = self._command(row["k"], row["t"], row["t2"], rid)
        uid = self._principal(row["who"])
        key = key_of(uid)
        cred, form = row["cred"], row["form"]
        st = {"op": "req", "id": rid, "fe": row["fe"], "form": form, "user": uid, "key": key, "cmd": text, "tweak": "none"}
        if effect:
            st["effect"] = effect
        if pre:
            st["pre"] = pre
        if undo:
            st["undo"] = undo
        if cred == "wrongkey":
            st["key"] = key + "x"
            if form == "authconn":
                st["auth_user"], st["auth_key"] = uid, key
        elif cred == "othersig":
            st["key"] = key_of(U2)
        elif cred == "othercmd":
            st["sign_text"] = "PING" if text != "PING" else "FLUSH"
        elif cred in ("truncated", "extended", "empty"):
            st["tweak"] = {"truncated": "truncate", "extended": "extend", "empty": "empty"}[cred]
        elif cred == "flipped":
            st["tweak"] = "flip"
        elif cred == "badauth":
            st["auth_user"], st["auth_key"] = uid, key + "x"
        elif cred == "nosig":
            st["tweak"] = "nosig"
        if form in ("conn",):
            st["conn"] = row["c"]
        if form == "token":
            st["token"] = f"k_{row['c']}"
            if row.get("same_conn"):
                st["conn"] = row["c"]
        if form == "authconn" and row["fe"] == "ws":
            # a refused AUTH is not answered on the WebSocket front end: do not wait long for it
            refused = cred == "badauth" or row["who"] == "ghost" or (row["who"] == "subj" and not self.subject_live)
            st["auth_wait_ms"] = 400 if refused else 8000
        self._add(st, {"kind": "req", "ck": ck, "row": row, "origin": origin, "rid": rid, "text": text})
        return rid

    def segments(self):
        """Step index ranges of the server processes of this lifetime (cut at restart steps; the
        restart step itself belongs to no process: its observation is the next process's start record)."""
        segs, start = [], 0
        for i, st in enumerate(self.steps):
            if st.get("op") == "restart":
                segs.append((start, i))
                start = i + 1
        segs.append((start, len(self.steps)))
        return segs

    def script(self, root, ports, out, seg=None):
        lo, hi = seg if seg else (0, len(self.steps))
        cfg = {"root": str(root), "tcp_addr": f"127.0.0.1:{ports[0]}", "http_addr": f"127.0.0.1:{ports[1]}",
               "ws_addr": f"127.0.0.1:{ports[2]}", "admin_user": ADMIN, "admin_key": key_of(ADMIN), "bypass_auth": False,
               "session_token_expiry_seconds": 3 if self.tick else 300, "fill_factor": 50, "event_per_zone": 10, "shards": 1}
        return {"config": cfg, "out": str(out), "steps": self.steps[lo:hi], "first_i": lo, "seeds": SEEDS, "ws_grace_ms": 250,
                "tokens_file": str(Path(root).parent / (Path(root).name + ".tokens.json"))}


# --------------------------------------------------------------------------- running
_port_lock = threading.Lock()
_next_port = [0]


def _free(p):
    s = socket.socket()
    try:
        s.bind(("127.0.0.1", p))
        return True
    except OSError:
        return False
    finally:
        s.close()


def alloc_ports():
    """Three loopback ports from a range of our own (27300..29900, offset by pid)."""
    with _port_lock:
        for _ in range(800):
            base = 27300 + ((os.getpid() * 7 + _next_port[0] * 3) % 2600)
            _next_port[0] += 1
            ps = (base, base + 1, base + 2)
            if all(_free(p) for p in ps):
                return ps
    raise core.ToolError("no free loopback ports")


def run_life(bindir, life, workdir, keep=False):
    """Runs the lifetime's server processes one after the other on the same directories.
    -> (observations aligned with life.steps, start record of the first process);
    raises ToolError when a server did not come up."""
    root = workdir / f"{life.name}-root"
    shutil.rmtree(root, ignore_errors=True)
    tf = workdir / f"{life.name}-root.tokens.json"
    if tf.exists():
        tf.unlink()
    body = {}
    first_open = None
    for n, seg in enumerate(life.segments()):
        for attempt in range(6):
            out = workdir / f"{life.name}.{n}.out"
            ports = alloc_ports()
            script = life.script(root, ports, out, seg)
            rc, obs, err = core.run_vdrive(bindir, script, timeout=900, name="vauth")
            if rc == 5:      # port taken between the check and the bind
                continue
            if rc != 0 or not obs or obs[-1].get("op") != "done":
                raise core.ToolError(f"vauth lifetime {life.name}/{n} failed rc={rc}: {err[-800:]} last={obs[-1:] if obs else None}")
            break
        else:
            raise core.ToolError("could not bind loopback ports")
        if n == 0:
            first_open = obs[0]
        else:
            # the restart step is observed through the new process's start record
            body[seg[0] - 1] = dict(obs[0], op="restart", i=seg[0] - 1)
        for o in obs[1:-1]:
            body[o["i"]] = o
    if not keep:
        shutil.rmtree(root, ignore_errors=True)
    if sorted(body) != list(range(len(life.steps))):
        raise core.ToolError(f"vauth lifetime {life.name}: {len(body)} observations for {len(life.steps)} steps")
    return [body[i] for i in range(len(life.steps))], first_open


def abstract_snapshot(users, uid):
    """The subject's row of the server's user table in the model's vocabulary."""
    u = users.get(uid)
    if u is None:
        return {"ex": False, "act": False, "roles": [], "perms": {t: {"set": False, "r": False, "w": False} for t in TYPES}}
    perms = {}
    for t in TYPES:
        p = u["perms"].get(t)
        perms[t] = {"set": p is not None, "r": bool(p and p["r"]), "w": bool(p and p["w"])}
    return {"ex": True, "act": u["active"], "roles": sorted(u["roles"]), "perms": perms}


def model_snapshot(st):
    return {"ex": st["ex"], "act": st["act"], "roles": sorted(st["roles"]),
            "perms": {t: dict(st["perms"][t]) for t in TYPES}}


def effect_of(o):
    if o.get("effect") is None:
        return "na"
    if o.get("effect_before") is True:
        return "na"
    return "yes" if o.get("effect") is True else "no"
