"""Statistical reproduction of the open finding C03-null-cells-after-read-during-segment-write.
usage: python3 findings/repro_null_cells.py <runs> <tag>   (prints the reads that returned rows with k = null)"""
import sys, json, shutil
sys.path.insert(0, '/verif')
from vlib import core
bindir = core.build_harness(("vdrive",))
bad = 0
for it in range(int(sys.argv[1])):
    root = core.WORK / "c03" / f"stale2_{sys.argv[2]}"
    if root.exists(): shutil.rmtree(root)
    root.mkdir(parents=True)
    steps = [{"op": "cmd", "text": 'DEFINE ev FIELDS { k: "int", x: "int" }'}]
    k = 0
    for rnd_ in range(6):
        for _ in range(3):
            k += 1
            steps.append({"op": "cmd", "text": f'STORE ev FOR c{k%2} PAYLOAD {{"k": {k}, "x": 1}}'})
            steps.append({"op": "cmd", "text": f'QUERY ev WHERE k = {k}', "tag": "barrier"})
        for _ in range(4):
            steps.append({"op": "cmd", "text": 'QUERY ev WHERE x >= 1', "tag": "during"})
    steps.append({"op": "flush_wait"})
    steps.append({"op": "cmd", "text": "QUERY ev WHERE x >= 1", "tag": "after"})
    steps.append({"op": "cmd", "text": "QUERY ev WHERE x >= 1", "tag": "after"})
    cfg = {"root": str(root / "db"), "fill_factor": 3, "event_per_zone": 1, "shards": 1, "k": 2, "threads": 6}
    rc, obs, err = core.run_vdrive(bindir, {"config": cfg, "out": str(root / "o.ndjson"), "steps": steps}, timeout=60)
    for o in obs:
        if o.get("tag") in ("after", "during", "barrier"):
            cols = o.get("columns", [])
            ks = [r[cols.index("k")] for r in o.get("rows", [])] if "k" in cols else []
            if None in ks:
                bad += 1
                print(it, o["tag"], ks, [r for r in o["rows"] if r[cols.index("k")] is None], cols, flush=True)
print("bad", bad)
